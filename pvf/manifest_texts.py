"""Texts of MANIFEST.json (claimed level, note, technique) per property; properties absent here are not claimed."""

_PYVC = ('contract-based deductive verification: sidecar contracts, verification conditions generated from the ast of the '
         'real source on every run (pyvc), discharged by z3 (cvc5 for what z3 leaves open; in the thorough tier every discharged '
         'obligation is re-checked by cvc5, a disagreement makes it undecided)')
_BOUNDED = ('run-time contract (postcondition of the property) evaluated on the real code over a bounded-exhaustive and '
            'seeded-random domain (bounded stand-in, never counted as proved)')
_ENC = 'pyvc encoding of the Python subset (DESIGN 2.3) and the solvers are trusted; '

TEXTS = {
    'C01': dict(category='other', engine='pyvc+bounded', technique=_PYVC + '; ' + _BOUNDED,
                text='Proved for all inputs (family printers, ~2200 obligations; every list / tuple / set value, class, length, limit, depth and trailing comment - the documents the builders return are named by uninterpreted functions): pretty_bracketable_iterable hands exactly the first min(len, N) items, in iteration order, to pretty_python_value under a context one level deeper that keeps max_seq_len (take_n proved to have length min(len, N) and to be the identity for N >= len); the truncation notice exists iff len > N and is formatted from len - N; at depth_left == 0 the placeholder is returned and no element is printed; a one-element tuple keeps its dangling comma unless a trailing comment takes its place; an instance of a subclass is the call general_identifier(class)(literal), also when empty and at the depth cut. pretty_dict (ghost log of the printer calls, two loop invariants): exactly the first min(len, N) keys - in dict order, or in sorted order under sort_dict_keys - are looked up and printed, every key and value under a context one level deeper that keeps max_seq_len (also the second rendering of a commented value; a str key at the level of the dict), the closing notice iff len > N with len - N, the placeholder (class kept, nothing printed) at depth_left == 0. pretty_float prints +inf / -inf / nan as the calls float("inf") / float("-inf") / float("nan") and every other float as float.__repr__; pretty_int, pretty_bool, pretty_none, pretty_ellipsis, pretty_frozenset (the call around the list of ALL items) likewise. The text these documents denote, the dict and string printers and the round trip as a whole are decided by the bounded stand-in: Bounded: eval(pformat(v)) is type-exactly equal to v for all value trees of <= 3 nodes (quick; <= 4 thorough) over an '
                     'adversarial leaf alphabet x a grid of (width, ribbon, indent) x sort_dict_keys, plus deep nestings and seeded random trees. '
                     'The printers are not yet under proved contracts, so nothing is claimed beyond the bound.',
                note='CPython eval/ast as oracle; domain bounds are written to the evidence.'),
    'C02': dict(category='other', engine='pyvc+bounded', technique=_PYVC + '; ' + _BOUNDED,
                text='Proved for all strings (family strings): determine_quote_strategy returns a quote character, the single quote unless the double quote occurs strictly less often (ties: single). pretty_str.evaluator (the width-dependent choice, as a nested unit): a string that fits is one literal; otherwise one literal or >= 1 non-empty pieces whose concatenation is s - str_to_lines is called with max_len >= 10, its precondition, at every call; subclass instances are wrapped on every path. Proved for ALL strings and every max_len > 0 (780 obligations over z3 String): the pieces str_to_lines yields concatenate to '
                     'the input, none is empty, and the loop terminates (lexicographic measure); split_at cuts without losing a character. '
                     'Bounded: escaping against the CPython lexer, quote choice, placement in 6 contexts x widths for every str/bytes over a '
                     '10-symbol alphabet up to length 4 (5), str_to_lines / escape_str_for_quote directly up to length 5 (6).',
                note=_ENC + 'assumed: re.Pattern.split returns >= 1 pieces whose concatenation is the input; escaped_len >= 0; the '
                     'evaluator that calls str_to_lines (floor of 10 columns) and escaping are decided by the bounded stand-in only.'),
    'C03': dict(category='other', engine='pyvc+bounded', technique=_PYVC + '; frame obligations decided by effect analysis over the ast of the real source (one obligation per mutation site, module-level mutable binding, global rebinding, memoising decorator, id() call, settings flow); ' + _BOUNDED,
                text='Proved for all inputs (family context): python_to_sdocs hands width and ribbon_width to the layout call only - the printers receive a context built from indent, depth, max_seq_len and sort_dict_keys alone (postcondition over the uninterpreted pretty_python_value / layout_smart). Proved on the source (frame): width / ribbon_width / ribbon_frac are arguments of the layout call only, PrettyContext has no width field, the three entry points pass each setting through one pipeline - so the document cannot depend on width or ribbon. Bounded: ast.dump of the output equal across 77-117 configurations for the C01 corpus, commented values, stdlib '
                     'instances, subclass instances and a pretty_call user type; every line indented by a multiple of indent.',
                note='CPython ast as oracle; bounds in the evidence.'),
    'C04': dict(category='proof', engine='pyvc+bounded', technique=_PYVC + '; bounded reference matcher on top',
                text='Proved for all documents, widths, ribbon fractions and both strategies (families layout + normalize, ~1100 obligations): '
                     '(1) the stack machine best_layout emits exactly den(doc, O) - a compositional denotation written from the statement '
                     '(fragments once and in order, line indents = sum of nest offsets, flat_choice by mode, always_break forces broken and '
                     'forces every enclosing group, annotations as nested push/pop pairs) - for the oracle O of the decisions it took; '
                     '(2) normalize_doc, all eight normalize methods and the lazy FlatChoice accessors preserve den (and wf, hlsafe, '
                     'reachability of always_break, the normal-form classification) - Concat.normalize and Fill.normalize with loop '
                     'invariants; (3) termination; no raise-path. Scope of the proof: documents satisfying hlsafe / fillclean (no literal '
                     'hard line in the flat rendering of a group or fill item; no NIL fill item) - outside it one known finding. (4) align: the '
                     'evaluator returns Nest(column - indent, doc), so breaks inside align(doc) are indented to the column where it starts; '
                     '(5) the renderer clause: default_render_to_stream writes the texts and line breaks in order, only the trailing blanks of '
                     'the last text of a line trimmed (family render). The carved shapes are decided by the bounded reference matcher, which '
                     'renders align from the statement (indentation := column), not through the library evaluator.',
                note=_ENC + 'assumed: contextual functions pure, size-bounded, returning hlsafe/fillclean/flatok documents (lemma_apply_ctx, '
                     'lemma_ctx_ok); normalize_doc deterministic on document values and FlatChoice cache mutation invisible (value '
                     'semantics); existence of an oracle agreeing with the recorded decisions (indices are distinct: meta-argument); '
                     'generator laziness not modelled.'),
    'C05': dict(category='proof', engine='pyvc+bounded', technique=_PYVC + '; ' + _BOUNDED,
                text='Proved for all inputs (classic documents without align, hard lines only outside groups or behind always_break): at the '
                     'moment best_layout continues a group in flat mode, the first line of everything that remains to be rendered - the line '
                     'the text of the group is put on - ends at or before min(W, indent + R), for every later decision (ghost assertion over the '
                     'denotational semantics den, which the output is proved equal to, C04). Chain: both fitting predicates return exactly '
                     'fits(...) (iff contract, loop invariants, termination); the group continues FLAT iff fits(available width); available '
                     'width == min(W - col, indent + R - col); smart fits implies fast fits (lemma_fits_mono); what fits bounds the first line '
                     'of den (lemma_bound, lemma_fits_bounds_line, structural induction with independent indentations and modes); the normal '
                     'form keeps atoms (family normalize). Second part: for documents whose normal form is classic with non-negative nests, a group '
                     'nested in a flat group is laid out flat too (line-budget invariant fits_stack(aw, SMART, mnl, aw - written, stack); '
                     'ghost assertion at the inner decision), so all text of the flat group is on that line. Bounded stand-in (not counted as proved): decisions recovered through the reference '
                     'semantics on all classic documents INCLUDING align of <= 5 (6) nodes x widths x fractions x strategies; a violation needs every '
                     'assignment matching the output to overflow. Two known findings (re-decided inner group under align; flat across a hard line).',
                note=_ENC + 'same assumptions as C04; float*int and round() uninterpreted; align (contextual documents) is outside the proved '
                            'statement: the predicate and the engine evaluate the function at different columns.'),
    'C06': dict(category='other', engine='pyvc+bounded', technique=_PYVC + '; ' + _BOUNDED,
                text='Proved for all inputs: best_layout continues a group in BREAK mode exactly when fits(available width, strategy, '
                     'min(outcol, indent), rest of the line with the group flat) is False and available width == min(W - col, indent + R - col) '
                     '(ghost assertions at the decision); each fitting predicate answers False exactly when the compositional fits() is False - '
                     'fits() unfolds to the reasons the statement lists - and content with a reachable always_break never fits '
                     '(lemma_forced_fails). Counter-models replay on the real predicates. Bounded: the one-line corollary for documents and for '
                     'values at widths L, L+1, L+2 (the corollary over pformat is not proved).',
                note=_ENC + 'same assumptions as C04.'),
    'C07': dict(category='other', engine='pyvc+bounded', technique=_PYVC + '; ' + _BOUNDED,
                text='Proved for all inputs (family printers): the deque, defaultdict, OrderedDict, Counter, mappingproxy, UUID and exception printers return exactly one constructor call - deque(list(d), maxlen=d.maxlen) with the keyword iff maxlen is not None, defaultdict(d.default_factory, dict(d)), OrderedDict(list(d.items())), Counter(dict(c.most_common())), type(e)(*e.args) - whose faithfulness is the constructor protocol of the standard library (assumed). These clauses pin the call the printer chose, so a refuted one counts as a violation only with a replayed failing value. Totality and the other types are decided by the bounded stand-in. Bounded: 263 boundary values of the 20 shipped stdlib types, all 597 pytz zones, seeded random datetime-family values x 7 '
                     'nesting contexts x 8 (95 thorough) configurations: no failure warning, eval reconstructs an equal object. Two known findings.',
                note='CPython eval as oracle.'),
    'C08': dict(category='other', engine='pyvc+bounded', technique=_PYVC + '; ' + _BOUNDED,
                text='Proved for all inputs (family printers, ~2200 obligations; every list / tuple / set value, class, length, limit, depth and trailing comment - the documents the builders return are named by uninterpreted functions): pretty_bracketable_iterable hands exactly the first min(len, N) items, in iteration order, to pretty_python_value under a context one level deeper that keeps max_seq_len (take_n proved to have length min(len, N) and to be the identity for N >= len); the truncation notice exists iff len > N and is formatted from len - N; at depth_left == 0 the placeholder is returned and no element is printed; a one-element tuple keeps its dangling comma unless a trailing comment takes its place; an instance of a subclass is the call general_identifier(class)(literal), also when empty and at the depth cut. pretty_dict (ghost log of the printer calls, two loop invariants): exactly the first min(len, N) keys - in dict order, or in sorted order under sort_dict_keys - are looked up and printed, every key and value under a context one level deeper that keeps max_seq_len (also the second rendering of a commented value; a str key at the level of the dict), the closing notice iff len > N with len - N, the placeholder (class kept, nothing printed) at depth_left == 0. The same for pretty_float / pretty_int / pretty_bool (wrapper iff type(value) is not the base type) and pretty_frozenset; general_identifier names a class by exactly its own __module__ and __qualname__ (builtins and __main__ unqualified). pretty_str.evaluator (family strings): an instance of a str / bytes subclass is wrapped in its constructor on every path - one literal, unsplittable, or split (the strategy is forced to PLAIN). Non-empty dict subclasses and the evaluation of the text are decided by the bounded stand-in: Bounded-exhaustive over 48 subclasses of the nine bases (plain, __repr__/__str__ overrides, enum style, qualified/nested) x '
                     'base values x 7 contexts x widths: type(eval(out)) is the subclass and the base value is equal.',
                note='CPython eval as oracle.'),
    'C09': dict(category='other', engine='bounded', technique=_BOUNDED,
                text='Bounded: all placements of <= 2 comments/trailing comments on all trees of <= 4 nodes x representative texts, and 59 attach '
                     'sites x all texts over a 10-character alphabet up to length 3 (4): same AST as uncommented, no fallback, words preserved in order.',
                note='CPython ast/tokenize as oracle.'),
    'C10': dict(category='other', engine='pyvc+bounded', technique=_PYVC + '; ' + _BOUNDED,
                text='Proved for all inputs (family printers, ~2200 obligations; every list / tuple / set value, class, length, limit, depth and trailing comment - the documents the builders return are named by uninterpreted functions): pretty_bracketable_iterable hands exactly the first min(len, N) items, in iteration order, to pretty_python_value under a context one level deeper that keeps max_seq_len (take_n proved to have length min(len, N) and to be the identity for N >= len); the truncation notice exists iff len > N and is formatted from len - N; at depth_left == 0 the placeholder is returned and no element is printed; a one-element tuple keeps its dangling comma unless a trailing comment takes its place; an instance of a subclass is the call general_identifier(class)(literal), also when empty and at the depth cut. pretty_dict (ghost log of the printer calls, two loop invariants): exactly the first min(len, N) keys - in dict order, or in sorted order under sort_dict_keys - are looked up and printed, every key and value under a context one level deeper that keeps max_seq_len (also the second rendering of a commented value; a str key at the level of the dict), the closing notice iff len > N with len - N, the placeholder (class kept, nothing printed) at depth_left == 0. pretty_frozenset hands the whole item list to the list printer. Dicts and the evaluation of the text are decided by the bounded stand-in. Proved for all inputs (family context, 53 obligations): PrettyContext.__init__, _replace for EVERY subset of fields (symbolic keyword map), nested_call (depth_left - 1, inf stays inf, everything else unchanged), use_multiline_strategy, assoc; python_to_sdocs builds the initial context from exactly the given indent / depth (None = unlimited) / max_seq_len / sort_dict_keys and a new visited set. The truncation logic of the printers is bounded only. Bounded: 3777 (9503) container values up to three levels x N in 1..7 and None x 3 widths: eval equals the reference '
                     'truncation, exactly one exact notice per over-long container, None equals a huge limit.',
                note='CPython eval/tokenize as oracle.'),
    'C11': dict(category='other', engine='pyvc+bounded', technique=_PYVC + '; ' + _BOUNDED,
                text='Proved for all inputs (family printers, ~2200 obligations; every list / tuple / set value, class, length, limit, depth and trailing comment - the documents the builders return are named by uninterpreted functions): pretty_bracketable_iterable hands exactly the first min(len, N) items, in iteration order, to pretty_python_value under a context one level deeper that keeps max_seq_len (take_n proved to have length min(len, N) and to be the identity for N >= len); the truncation notice exists iff len > N and is formatted from len - N; at depth_left == 0 the placeholder is returned and no element is printed; a one-element tuple keeps its dangling comma unless a trailing comment takes its place; an instance of a subclass is the call general_identifier(class)(literal), also when empty and at the depth cut. pretty_dict (ghost log of the printer calls, two loop invariants): exactly the first min(len, N) keys - in dict order, or in sorted order under sort_dict_keys - are looked up and printed, every key and value under a context one level deeper that keeps max_seq_len (also the second rendering of a commented value; a str key at the level of the dict), the closing notice iff len > N with len - N, the placeholder (class kept, nothing printed) at depth_left == 0. pretty_call_alt: the placeholder name(...) at depth_left <= 0, a hugged sole list / dict / tuple argument printed under the SAME context (consumes no level), every other argument one level deeper; pretty_float / pretty_int placeholders. Proved for all inputs (family context, 53 obligations): PrettyContext.__init__, _replace for EVERY subset of fields (symbolic keyword map), nested_call (depth_left - 1, inf stays inf, everything else unchanged), use_multiline_strategy, assoc; python_to_sdocs builds the initial context from exactly the given indent / depth (None = unlimited) / max_seq_len / sort_dict_keys and a new visited set. The depth tests of the printers are bounded only. Bounded: 15k (116k) container trees with unique leaves, height <= 4 (5), d in 0..height+2 and None: leaf visibility, '
                     'placeholder shapes, identity above the cut and beyond the height. Two known findings (atoms below the cut, str key at the cut).',
                note='CPython ast as oracle.'),
    'C12': dict(category='other', engine='pyvc+bounded', technique=_PYVC + ' for termination measures; ' + _BOUNDED + ' for the growth law',
                text='Proved: termination measures of the fitting predicates, of normalisation (rank of the document), of best_layout (stack_size decreases on every iteration, given '
                     'size-bounded contextual functions) and of str_to_lines (all strings, all max_len > 0). Bounded: interpreter-step counts (sys.monitoring) on 23 input families at n,2n,4n,8n '
                     'with growth factor <= 6. Known finding: commented dict nesting is exponential.',
                note=_ENC + 'a contract cannot state a complexity class: the growth law is monitored only.'),
    'C13': dict(category='other', engine='pyvc+bounded', technique=_PYVC + '; ' + _BOUNDED,
                text='Proved for a symbolic printer, value and exception class (59 obligations): _run_pretty restores the visited set on every '
                     'normal and exceptional exit, returns the marker iff the id is on the path, set.remove never fails; start_visit / end_visit / '
                     'is_visited add, remove (present) and test exactly id(value); derived contexts share the '
                     'visited set, python_to_sdocs starts every call with a new one (family context). Bounded-exhaustive: '
                     'every rooted graph of list/dict/tuple nodes up to 3 (4) nodes up to isomorphism, random up to 10 nodes, failing user '
                     'printers: markers exactly at back edges, shared nodes in full, no residue; plus exhaustive PrettyContext contracts.',
                note=_ENC + 'assumed: printers restore visited themselves (frame), id() injective on live objects; termination of the '
                     'recursion over the object graph is bounded only.'),
    'C14': dict(category='other', engine='pyvc+bounded', technique=_PYVC + '; ' + _BOUNDED + ' (single-fault enumeration)',
                text='Proved for EVERY exception class (symbolic class with subclass predicates) and every printer: a failure derived from '
                     'Exception is contained (repr, exactly one warning, at most two attempts), only non-Exception classes and the '
                     'invalid-result error escape, with and without trailing comment, signature-mismatch path included. Bounded: every '
                     'single fault position x 6 classes x wraps on all trees of <= 4 (5) invocations, random pairs, and 6 / 8 / all-but-one failing '
                     'invocations in one call on a wide and on a deep structure: siblings/ancestors unchanged, one warning per failure.',
                note=_ENC + 'the warning text and that ancestors are unaffected are bounded only; _warn_about_bad_printer is a trusted straight-line contract.'),
    'C15': dict(category='proof', engine='pyvc+bounded', technique=_PYVC + '; frame obligations decided by effect analysis over the ast of the real source; ' + _BOUNDED,
                text='Proved for all inputs from the source of prettyprinter.py (family registry, 322 obligations) over an abstract view of the three '
                     'registries (class -> printer, qualified name -> printer, ordered predicate list) and for EVERY state, class and MRO (the MRO '
                     'is an arbitrary list headed by the class): register_pretty validates its arguments and its decorator writes exactly one entry '
                     'of exactly one registry by the kind of its argument (a later registration replaces the entry); is_registered answers "some '
                     'class of the MRO / the class itself has an entry", by-name entries counting iff check_deferred, for all 8 flag combinations, '
                     'raises ValueError exactly for the forbidden one, changes nothing with register_deferred=False; whatever it promotes, the '
                     'printer the rule names (nearest class of the MRO with a by-name or direct entry) is unchanged for EVERY class (lemma '
                     'lemma_promotion_invisible, by induction over the MRO); after the call every print makes first, singledispatch\'s lookup IS '
                     'the rule\'s printer (pretty_python_value: the printer that runs is eff of the unwrapped value\'s class); _repr_pretty runs the '
                     'first-registered accepting predicate, otherwise repr (loop invariant). Histories: each operation is one of these '
                     'contracts over the view, so the rule holds after every history by induction on its length (meta-argument). Bounded '
                     'stand-in: all operation histories of length <= 3 (4) over 68 operations on a 5-class lattice with a diamond and object, '
                     'random histories up to length 12, against the reference dispatch rule of the statement.',
                note=_ENC + 'singledispatch is modelled (first direct entry along the MRO; base printer under object; no ABC virtual subclasses, '
                            'no dispatch cache); distinct classes have distinct qualified names; registered wrappers are identified with their '
                            'printers; the quantified invariant "every pending by-name printer accepts (value, ctx)" is used through instances.'),
    'C16': dict(category='proof', engine='pyvc+bounded', technique=_PYVC + '; frame obligations decided by effect analysis over the ast of the real source; ' + _BOUNDED + ' (styles x tokens exhaustive)',
                text='Proved for all inputs from the source of color.py / render.py (family render, 262 obligations), for every sdoc stream, style, '
                     'newline and separator, with the stream as the sequence of pieces written to it: what colored_render_to_stream writes, with '
                     'the style pieces removed, is exactly what default_render_to_stream writes (both equal put_lines(lines with the trailing blanks '
                     'of the last text trimmed)); at every moment the style in effect is the color on top of the color stack - the innermost open '
                     'syntax token - or the reset state, so the enclosing style is restored when an inner token ends; the stack holds exactly one '
                     'color per open syntax token (annotations that are not tokens neither push nor pop); the stream ends in the reset state; no '
                     'exception escapes. Bounded-exhaustive (not counted as proved): every syntax token x every pygments style renders, the ANSI '
                     'structure of str(color), stripped cpprint == pformat on 94 values x configurations, per-character styles.',
                note=_ENC + 'as_lines, rfind_idx and str.rstrip are shared by both renderers and uninterpreted; the color of a token (style lookup, '
                            'cache) is not part of the proved statement.'),
    'C17': dict(category='other', engine='pyvc+bounded', technique=_PYVC + '; ' + _BOUNDED,
                text='Proved for all inputs (family printers): pretty_call_alt returns build_fncall(general_identifier(fn), [pretty_python_value(a) for every positional argument, in order], [(name, pretty_python_value(v)) for every keyword argument, in the order given (dict items in dict order)]) - nothing dropped, reordered or printed under a context that differs from the one a stand-alone print one level deeper would get; the sole list / dict / tuple argument is hugged; general_identifier is exactly module.qualname of the callable (builtins / __main__ unqualified). pretty_call forwards its packs to it unchanged. The dataclasses and attrs extras (loop invariant over the field list, against the CONTRACT of pretty_call_alt): the keyword arguments are exactly the fields with repr enabled whose value differs from the declared default or default-factory result (or that have no default), in declaration order, attrs under the init alias. build_fncall and the evaluation of the text are decided by the bounded stand-in: Bounded: pretty_call / pretty_call_alt argument lists (all with <= 1 argument, random up to 4+3) and generated dataclass / attrs '
                     'class definitions (all with <= 1 field, random up to 3-4) x instances x configurations: callee, argument order, field selection, eval.',
                note='keyword names fn/ctx cannot be passed to pretty_call by Python itself: outside the quantifier for pretty_call (kept for pretty_call_alt).'),
    'C18': dict(category='proof', engine='pyvc+bounded', technique=_PYVC + '; frame obligations decided by effect analysis over the ast of the real source; ' + _BOUNDED,
                text='Proved for all inputs from the source of prettyprinter/__init__.py (family config, 471 obligations): for every value, stream, '
                     'state of the module-level defaults and EVERY combination of explicit / unset settings (each setting a symbolic object that '
                     'may be the sentinel): _merge_defaults lets explicit arguments override the defaults field by field; pformat returns '
                     'text(v, merged settings); pprint appends exactly that text followed by `end` (if truthy) to the given stream or sys.stdout '
                     'and touches no other stream (whole-heap postcondition); cpprint renders the same sdocs with the style; set_default_config '
                     'changes exactly the settings it is given (all 64 paths), never indent, and returns the new defaults; get_default_config '
                     'reports them; pretty_repr of a registered type is pformat with every setting defaulted; python_to_sdocs (family context) builds the '
                     'initial PrettyContext from exactly the merged settings (depth None = unlimited) and a new visited set. Declarations (key set of '
                     '_default_config, signature of python_to_sdocs, the imported names, the single sentinel instance) are re-checked against '
                     'the source on every run. The PrettyPrinter shim stores and forwards *args / **kwargs unchanged (opaque argument packs; binding them '
                     'to the parameters is Python call semantics, not modelled). Bounded stand-in: 64 '
                     'explicit/default combinations after every sequence of <= 2 (3) set_default_config calls x all entry points x 3 values.',
                note=_ENC + 'python_to_sdocs and the two renderers are external here: assumed deterministic functions of their arguments that '
                            'append to the given stream only; `end` is a str; the printer registry is not modelled.'),
    'C19': dict(category='other', engine='bounded', technique='frame obligations decided by effect analysis over the ast of the real source (one obligation per mutation site, module-level mutable binding, global rebinding, memoising decorator, id() call, settings flow); ' + _BOUNDED,
                text='Proved on the source (164 frame obligations): every mutation site targets an object created in the same function or a declared frame location and never something reachable from the printed value; no module-level mutable state, global rebinding or memoising decorator outside the declared frame; id() occurs only in the visited-set primitives and the recursion marker. Bounded: 79 corpus entries printed first in fresh interpreters, in whole-corpus orders, and in 48 (1200) in-process sequences with '
                     'allocation churn; deep snapshots of inputs before/after.',
                note='fresh-interpreter output is the reference.'),
}

NOT_APPLICABLE = [
    {'property_id': 'C20', 'reason': 'interleavings of threads: sequential pre/postconditions have no thread model, atomicity or ownership '
                                     'discipline; outside contract-based deductive verification (DESIGN.md, C20)'},
]
