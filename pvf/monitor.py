"""Run-time contracts attached to the real code of the tree under check without editing it.

ctx_invariant(): contract of the context family.  Every PrettyContext created while one value is being printed
(python_to_sdocs active) must carry the settings of that call: indent, max_seq_len, sort_dict_keys equal to the
arguments of python_to_sdocs, `visited` the one set created for the call, depth_left <= the requested depth.
Whatever way a printer derives its child contexts (nested_call, _replace, or the constructor), the settings of the
call apply at every nesting level - that is what C10 / C11 / C17 / C18 rely on.
Violations are appended to the returned list; nothing is raised into the code under check.
"""
import importlib
import threading

from pvf.bounded import common

_STATE = {}


def install_ctx_invariant():
    """idempotent; returns the sink list of violation dicts"""
    if 'sink' in _STATE:
        return _STATE['sink']
    common.load_repo()
    P = importlib.import_module('prettyprinter.prettyprinter')
    top = importlib.import_module('prettyprinter')
    sink = []
    local = threading.local()
    orig_init = P.PrettyContext.__init__
    orig_p2s = P.python_to_sdocs

    def init(self, *a, **kw):
        orig_init(self, *a, **kw)
        root = getattr(local, 'root', None)
        if root is None:
            return
        if root.get('visited') is None:
            root['visited'] = self.visited          # the first context of the call owns the set
        for f in ('indent', 'max_seq_len', 'sort_dict_keys'):
            got, want = getattr(self, f), root[f]
            if got is not want and not (type(got) is type(want) and got == want):
                sink.append({'kind': 'ctx-invariant', 'observed': 'a context with %s=%r was created' % (f, got),
                             'expected': '%s=%r (the setting of the call) at every nesting level' % (f, want),
                             'tags': sorted(['ctx:constructed', 'field:' + f]),
                             'case': {'check': 'ctx-invariant', 'value': root['repr'], 'kwargs': root['kwargs'], 'field': f}})
        if self.visited is not root['visited']:
            sink.append({'kind': 'ctx-invariant', 'observed': 'a context with its own visited set was created',
                         'expected': 'one visited set per top-level call', 'tags': ['ctx:constructed', 'field:visited'],
                         'case': {'check': 'ctx-invariant', 'value': root['repr'], 'kwargs': root['kwargs'], 'field': 'visited'}})

    def p2s(value, indent, width, depth, ribbon_width, max_seq_len, sort_dict_keys):
        prev = getattr(local, 'root', None)
        try:
            r = repr(value)[:300]
        except Exception:       # noqa
            r = '<unreprable>'
        local.root = {'indent': indent, 'max_seq_len': max_seq_len, 'sort_dict_keys': sort_dict_keys, 'visited': None,
                      'repr': r, 'kwargs': {'indent': indent, 'width': width, 'depth': depth, 'ribbon_width': ribbon_width,
                                            'max_seq_len': max_seq_len, 'sort_dict_keys': sort_dict_keys}}
        try:
            return orig_p2s(value, indent, width, depth, ribbon_width, max_seq_len, sort_dict_keys)
        finally:
            local.root = prev

    P.PrettyContext.__init__ = init
    P.python_to_sdocs = p2s
    top.python_to_sdocs = p2s          # pformat / pprint / cpprint look the name up in the package namespace
    _STATE['sink'] = sink
    return sink


def drain(sink, acc, limit=20):
    """move recorded violations into a bounded accumulator (one witness per field)"""
    seen = {(v['kind'], tuple(v['tags'])) for v in acc['violations']}
    n = 0
    while sink:
        v = sink.pop()
        key = (v['kind'], tuple(v['tags']))
        if key in seen or n >= limit:
            continue
        seen.add(key)
        acc['violations'].append(v)
        n += 1


def replay_ctx_invariant(case):
    return {'violated': False, 'detail': 'recorded by the run-time contract of the context family while printing %s with %r; '
                                         're-run the check to reproduce' % (case.get('value'), case.get('kwargs'))}
