#!/usr/bin/env python3
"""Regenerates MANIFEST.json from pvf/properties.py + the texts below (dev-time tool)."""
import json, os, sys
sys.path.insert(0, os.path.dirname(os.path.abspath(__file__)))
from pvf.properties import PROPS
from pvf.manifest_texts import TEXTS, NOT_APPLICABLE

BASE = "cd /repo && /venv/bin/python -m pytest -ra -q -p no:cacheprovider --timeout=900 --continue-on-collection-errors"
m = {
    "version": 1,
    "setup_cmd": "./setup.sh",
    "hooks": {
        "guard": "PRETTYPRINTER_VERIF",
        "enable": "none needed: contracts live in /verif/pvf/contracts (sidecar); pyvc reads the real source of /repo on every run, "
                  "the run-time monitor decorates the real source in memory through an import hook; /repo carries no instrumentation",
        "baseline_off_cmd": BASE,
        "source_commits": [],
        "add_only": True,
    },
    "engines": [
        {"name": "pyvc", "path": "pvf/pyvc", "serves_properties": sorted(p for p, v in PROPS.items() if v['families'] and p in TEXTS),
         "kind_free_text": "verification-condition generator over the ast of the real Python source (symbolic execution per path, "
                           "loops cut at invariants, modular calls, fuel unfolding of spec functions, lemma instantiation), z3 5.1 then cvc5"},
        {"name": "bounded", "path": "pvf/bounded", "serves_properties": sorted(p for p, v in PROPS.items() if v.get('bounded') and p in TEXTS),
         "kind_free_text": "run-time contracts over bounded-exhaustive and seeded random domains through the real code (stand-in, never counted as proved)"},
    ],
    "checks": [],
    "not_applicable": NOT_APPLICABLE,
    "notes": "See DESIGN.md. ./check <ID> rebuilds everything from /repo's working tree on every run.",
}
for pid in sorted(PROPS):
    if pid not in TEXTS:
        continue
    t = TEXTS[pid]
    m["checks"].append({
        "property_id": pid,
        "quick_cmd": "./check %s --tier quick" % pid,
        "thorough_cmd": "./check %s --tier thorough" % pid,
        "evidence_file": "evidence/%s.json" % pid,
        "replay_cmd_template": "./check %s --replay {path}" % pid,
        "engine": t.get("engine", "pyvc+bounded"),
        "level_claimed": {"category": t["category"], "text": t["text"], "design_ref": t.get("design_ref", "DESIGN.md section 6, " + pid)},
        "level_note": t["note"],
        "technique": t["technique"],
    })
with open(os.path.join(os.path.dirname(os.path.abspath(__file__)), 'MANIFEST.json'), 'w') as f:
    json.dump(m, f, indent=1)
print("MANIFEST.json: %d checks, %d not applicable" % (len(m["checks"]), len(m["not_applicable"])))
