#!/usr/bin/env python3
"""Dev-time tool for seeded faults (never part of a registered check).

  tools_seeded.py import <src dir> [...]   verify a seeded change in a scratch worktree (patch applies, demo fails with it and
                                            passes without it, pinned suite unchanged) and copy it to /verif/seeded/<id>/
  tools_seeded.py detect [<id> ...]         apply each kept change to /repo, run ./check <property> --tier quick, undo it,
                                            record what the check said in seeded/<id>/detect.json
"""
import json
import os
import shutil
import subprocess
import sys

VERIF = os.path.dirname(os.path.abspath(__file__))
REPO = '/repo'
SEEDED = os.path.join(VERIF, 'seeded')
PY = '/venv/bin/python'
BASE_FAIL = {'tests/test_ast.py::test_parsed', 'tests/test_ast.py::test_pure_node[Name-ast.Name]',
             'tests/test_ast.py::test_pure_node[Name-custom.Name]', 'tests/test_requests.py::test_session'}


def sh(cmd, cwd=None, timeout=3600):
    env = dict(os.environ)
    if cwd and cwd.startswith('/tmp/vw_'):
        env['PYTHONPATH'] = cwd          # demos and the suite import the scratch checkout, not the installed /repo
    p = subprocess.run(cmd, shell=True, cwd=cwd, capture_output=True, text=True, timeout=timeout, env=env)
    return p.returncode, p.stdout + p.stderr


def run_tests(wt):
    rc, out = sh('%s -m pytest -q -p no:cacheprovider --timeout=900 --continue-on-collection-errors -rf 2>&1 | tail -40' % PY, cwd=wt)
    failed = set()
    for line in out.splitlines():
        if line.startswith('FAILED '):
            failed.add(line.split()[1])
    return failed, out[-1500:]


def do_import(src):
    name = os.path.basename(src.rstrip('/'))
    wt = '/tmp/vw_%s' % name
    sh('git -C %s worktree remove --force %s' % (REPO, wt))
    rc, out = sh('git -C %s worktree add -q --detach %s HEAD' % (REPO, wt))
    res = {'id': name, 'source': src}
    try:
        patch = os.path.join(src, 'patch.diff')
        demo = os.path.join(src, 'demo.py')
        rc, out = sh('%s %s' % (PY, demo), cwd=wt, timeout=600)
        res['demo_without_patch_exit'] = rc
        rc, out = sh('git apply %s' % patch, cwd=wt)
        res['patch_applies'] = (rc == 0)
        if rc != 0:
            res['apply_error'] = out[-400:]
            return res
        rc, out = sh('%s %s' % (PY, demo), cwd=wt, timeout=600)
        res['demo_with_patch_exit'] = rc
        res['demo_with_patch_tail'] = out[-600:]
        failed, tail = run_tests(wt)
        res['tests_failed_with_patch'] = sorted(failed)
        res['tests_unchanged'] = (failed == BASE_FAIL)
        res['kept'] = bool(res['demo_without_patch_exit'] == 0 and res['demo_with_patch_exit'] != 0 and res['tests_unchanged'])
        if res['kept']:
            dst = os.path.join(SEEDED, name)
            os.makedirs(dst, exist_ok=True)
            shutil.copy(patch, os.path.join(dst, 'patch.diff'))
            shutil.copy(demo, os.path.join(dst, 'demo.py'))
            meta = {}
            try:
                meta = json.load(open(os.path.join(src, 'meta.json')))
            except Exception:       # noqa
                pass
            meta['verified'] = {k: res[k] for k in ('demo_without_patch_exit', 'demo_with_patch_exit', 'tests_unchanged')}
            meta['ran'] = ('in a scratch worktree of /repo HEAD: demo.py without the patch (exit 0), git apply patch.diff, demo.py '
                           '(exit != 0), the pinned pytest command (same 4 failing tests as the unchanged tree)')
            json.dump(meta, open(os.path.join(dst, 'meta.json'), 'w'), indent=1)
    finally:
        sh('git -C %s worktree remove --force %s' % (REPO, wt))
    return res


def do_detect(name):
    d = os.path.join(SEEDED, name)
    meta = json.load(open(os.path.join(d, 'meta.json')))
    pid = meta.get('property') or name.split('_')[0]
    rc, out = sh('git -C %s status --porcelain' % REPO)
    if out.strip():
        raise SystemExit('/repo is not clean: ' + out)
    rc, out = sh('git -C %s apply %s' % (REPO, os.path.join(d, 'patch.diff')))
    if rc != 0:
        return {'id': name, 'error': 'patch does not apply to /repo: ' + out[-300:]}
    # the check rewrites evidence/<pid>.json: what it writes for a deliberately broken tree must not replace (and later be
    # committed instead of) the evidence of the unchanged tree
    ev = os.path.join(VERIF, 'evidence', pid + '.json')
    ev_saved = open(ev).read() if os.path.exists(ev) else None
    try:
        rc, out = sh('./check %s --tier quick' % pid, cwd=VERIF, timeout=3600)
    finally:
        sh('git -C %s checkout -- .' % REPO)
        if ev_saved is not None:
            open(ev, 'w').write(ev_saved)
    lines = out.splitlines()
    res = {'id': name, 'property': pid, 'check_exit': rc,
           'violation_lines': [l[:300] for l in lines if l.startswith('VIOLATION')][:6],
           'n_violations': sum(l.startswith('VIOLATION') for l in lines),
           'undecided': [l[:200] for l in lines if l.startswith('UNDECIDED')][:6],
           'faults': [l[:300] for l in lines if l.startswith('CHECKER-FAULT')][:3],
           'summary': lines[0][:300] if lines else ''}
    res['detected'] = (rc == 1 and res['n_violations'] > 0)
    json.dump(res, open(os.path.join(d, 'detect.json'), 'w'), indent=1)
    return res


if __name__ == '__main__':
    cmd = sys.argv[1]
    if cmd == 'import':
        for src in sys.argv[2:]:
            r = do_import(src)
            print(json.dumps({k: r.get(k) for k in ('id', 'patch_applies', 'demo_without_patch_exit', 'demo_with_patch_exit',
                                                    'tests_unchanged', 'kept', 'tests_failed_with_patch')}))
    elif cmd == 'detect':
        names = sys.argv[2:] or sorted(os.listdir(SEEDED))
        for n in names:
            if not os.path.exists(os.path.join(SEEDED, n, 'meta.json')):
                continue
            r = do_detect(n)
            print(json.dumps({k: r.get(k) for k in ('id', 'property', 'check_exit', 'n_violations', 'detected', 'error')}))
            for l in r.get('violation_lines', [])[:2]:
                print('    ', l)
